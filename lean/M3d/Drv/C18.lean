import M3d.Basic
import M3d.Model.Surface
import M3d.Model.Param
import M3d.Model.ParamExt
import M3d.Model.ParamSparse
import M3d.Model.ParamCG
import Std.Data.HashMap
/-!
Line-protocol handler for C18.  Core-only.

    grow   H h S maxSize A maxArea T n tris AR n areas PN n ints PO n ints
           → the charts of the Lean state machine (`M3d.Param.planeGraphs` with `prioPolicy`, areas
             at `Float`), compared for equality with the real `nextMeshPlaneGraphs` driven by the same
             integer priorities (validates the model the theorems are about)
    charts d I n tris O k (n tris)*   → `ok` iff the real charts partition the input and each is a
             disc (`isDisc`: Surface's proved deciders + Euler characteristic + connectivity)
    bseq   T n tris                  → `boundarySequence` (rotated to its smallest id) or `panic`
    system T.. B.. W..               → the rows of the Floater system, exact rationals
    param  m L lo H hi TOL t T.. B.. W.. X n (id x y)*
           → `resid=ok` (weighted-mean residual ≤ tol: validation of the iterative solver) and
             `uv=ok` (`uvValid` in exact arithmetic on the float outputs)
    hist   L lo H hi TOL t T.. B.. K k (S mode W.. BA n (id x y)* X n (id x y)*)*
           → `ok` iff after EVERY solve of the history (all over the one boundary map `B`): the
             boundary map `BA` still equals `B` (size and values), the solution equals `B` on the
             boundary, the weighted-mean residual for THIS solve's weights is ≤ tol, and `uvValid`
    atlas  RES r M n U u C k (indices) T k (6 rationals)*
           → `cover=ok` iff the UV map has exactly the mesh's triangles as keys (each once: `u = n`,
             the covered indices are `0..n-1`), `uv=ok` iff `uvValid 0 1`
    near   T Q p N n (6 rationals)*  → `findUV`: index + barycentric coordinates (faithful model of
             `newTri2dLookup`/`Find`, exact) or `nil`
    near   M|N Q p N n (6 + 9 rationals)* R idx q
           → `ok` iff triangle `idx` is at the smallest distance from `p` over ALL triangles (linear
             scan; distance 0 = contains `p`) and `q` is the 3-D interpolation of its point closest to
             `p`; exact for `M`, with 1e-9 relative slack on squared distances and 1e-7 on `q` for `N`
    pack   B b R .. N k (A area M m (6 rationals)*)*  → the packed UVs (exact) or `panic`
    circle P p N n (len x y)*        → `ok` iff the real CircleBoundary/PNormBoundary placement is within 1e-12 of
           the arc-length model `runSums`/`arcParams` (cos/sin/pow from libm: validation only)
    ext    S MD d L lo H hi T n tris B n (id x y)* A n (id x y)*
           → `ok` iff the real `ExtendBoundaryUVs` (map `B` before, `A` after, exact rationals of the floats)
             did what `extend_boundary_*` prove of the model: only ear apexes of the boundary cycle moved
             (`extend_boundary_moves_only_ears`); every moved apex stayed on its side of the opposite edge, is
             not closer to it than before and moved by at most `maxDist` (`extend_boundary_ear_moves_away`;
             the side condition `earCross · originCross > 0` of that theorem is checked on `B` and reported as a
             generator fault); no triangle changed orientation and the layout is still `uvValid`
    ext    F MD d ST v T n tris P n (x y z)* B n (x y)*   (hex floats)
           → the boundary vertices `id x y` after `extendBoundary` at `Float` (faithful model of the loop,
             bit for bit; validates the model the theorems are about)
    sparse Q|F N n P p OPS k (row col value)* X n values Y n values PERM n ints
           → what the model `M3d.Sparse.SM` of `numerical.SparseMatrix` gives for the same `Set` calls (rows of any
             length, any order): `Apply(X)` after the first `p` calls and after all of them, `ApplyVec2`, the rows as
             `Iterate` enumerates them, `Transpose()` (rows and `Apply`), `Permute(PERM)` (rows and `Apply`); exact
             rationals for `Q` (dyadic data: every Go operation is exact, so the answer is the mathematical
             `A·x` of `sparse_rows_independent`), bit for bit at `Float` for `F` (same operations in the same order)
    cg     F N n OPS k (row col value)* B n values G g values MAXIT m MSE t MAE t IT j   (hex floats)
           → `S` the vector `BiCGSTABSolver{m, t, t}.SolveLinearSystem(matrix.Apply, B, G)` returns (or `panic` for
             its NaN panic) and `I` the solutions after 1..j calls of `BiCGSTAB.Iter()`: the model `M3d.CG` over the
             model `M3d.Sparse.SM`, same operations in the same order at `Float`, bit for bit (NaN printed as `nan`);
             validates the model `bicgstab_residual_invariant` / `bicgstab_solver_returns_an_iterate` are about
    mapfn  E|N Q p WANT w R q U uv-triangle P 3d-triangle → `ok` iff the returned triangle
           contains `p` and `q` is the barycentric interpolation (= `WANT`); exact for `E`,
           within 1e-7 for `N` (float arithmetic: validation)
-/
namespace M3d.Drv.C18
open M3d M3d.Surface M3d.Param

abbrev Toks := List String

def parseTri (s : String) : Option Tri :=
  match (s.splitOn ",").mapM (·.toNat?) with
  | some [a, b, c] => some (a, b, c)
  | _ => none

/-- `<marker> <n> <n items>` -/
def takeN (marker : String) (ws : Toks) (per : Nat := 1) : Option (Toks × Toks) :=
  match ws with
  | m :: n :: rest =>
    if m ≠ marker then none else
    match n.toNat? with
    | some k => if rest.length < k * per then none else some (rest.take (k * per), rest.drop (k * per))
    | none => none
  | _ => none

def takeSoup (marker : String) (ws : Toks) : Option (List Tri × Toks) := do
  let (ts, r) ← takeN marker ws
  let ts ← ts.mapM parseTri
  some (ts, r)

/-- `<n> tris` without marker -/
def takeSoup0 (ws : Toks) : Option (List Tri × Toks) :=
  match ws with
  | n :: rest =>
    match n.toNat? with
    | some k => if rest.length < k then none else (rest.take k).mapM parseTri |>.map fun ts => (ts, rest.drop k)
    | none => none
  | _ => none

def triKey (nv : Nat) (t : Tri) : Nat := (t.1 * nv + t.2.1) * nv + t.2.2

def verdict (checks : List (String × Bool)) : String :=
  let bad := checks.filter (fun c => !c.2)
  if bad.isEmpty then "ok" else "FAIL " ++ " ".intercalate (bad.map fun c => c.1)

/-! ### grow -/

def handleGrow (ws : Toks) : Option String := do
  match ws with
  | "H" :: h :: "S" :: s :: "A" :: a :: rest =>
    let maxSize ← s.toNat?
    let maxArea : Option Float ← if a == "-" then some none else (floatOfHex a).map some
    let (ts, r) ← takeSoup "T" rest
    let (ar, r) ← takeN "AR" r
    let areas ← ar.mapM floatOfHex
    let (pn, r) ← takeN "PN" r
    let pn ← pn.mapM (·.toInt?)
    let (po, _) ← takeN "PO" r
    let po ← po.mapM (·.toInt?)
    let n := ts.length
    let nv := (vertsAll ts).foldl max 0 + 1
    let idx : Std.HashMap Nat Nat := (ts.zipIdx).foldl (fun m (t, i) => m.insert (triKey nv t) i) {}
    let pnA := pn.toArray
    let poA := po.toArray
    let arA := areas.toArray
    let ix := fun (t : Tri) => (idx.get? (triKey nv t)).getD 0
    let prio : Option Tri → Tri → Int := fun o t =>
      match o with
      | none => pnA[ix t]!
      | some o => poA[ix o]! * (n : Int) + pnA[ix t]!
    let area : Tri → Float := fun t => arA[ix t]!
    let P := prioPolicy prio area maxSize maxArea
    let charts := planeGraphs P (h == "1") ((n + 1) * (n + 1)) (n + 1) ts
    let render := fun (c : List Tri) =>
      ",".intercalate ((sortBy (fun a b => decide (a < b)) (c.map ix)).map toString)
    some (" | ".intercalate (charts.map render))
  | _ => none

/-! ### charts -/

partial def takeCharts : Nat → Toks → Option (List (List Tri))
  | 0, _ => some []
  | k + 1, ws => do
    let (c, r) ← takeSoup0 ws
    let cs ← takeCharts k r
    some (c :: cs)

def triLt (a b : Tri) : Bool :=
  a.1 < b.1 || (a.1 == b.1 && (a.2.1 < b.2.1 || (a.2.1 == b.2.1 && a.2.2 < b.2.2)))

def handleCharts (ws : Toks) : Option String := do
  match ws with
  | _desc :: rest =>
    let (inp, r) ← takeSoup "I" rest
    match r with
    | "O" :: tok :: r2 =>
      match tok.toNat? with
      | none => some ("FAIL status=" ++ tok)
      | some k =>
        let cs ← takeCharts k r2
        let all := sortBy triLt cs.flatten
        let part := all == sortBy triLt inp
        let discs := cs.zipIdx.map fun (c, i) => (s!"chart{i}-not-disc(n={c.length},chi={euler c})", isDisc c)
        let nonEmpty := cs.zipIdx.map fun (c, i) => (s!"chart{i}-empty", !c.isEmpty)
        -- the precondition of the property (and of `growth_keeps_disc_partial`): the input is an oriented
        -- manifold, possibly with boundary, without degenerate faces
        let inputOK := noDegenerate inp && orientedEdges inp && (verts inp).all (linkOK inp)
        some (verdict ([("generator-input-not-a-manifold", inputOK), ("not-a-partition", part)] ++ nonEmpty ++ discs))
    | _ => none
  | _ => none

/-! ### bseq -/

def handleBseq (ws : Toks) : Option String := do
  let (ts, _) ← takeSoup "T" ws
  let starts := (bdyEdgesFind ts).map (·.1)
  match starts with
  | [] => some "panic"
  | s :: r =>
    let start := r.foldl min s
    match boundarySeq ts start with
    | none => some "panic"
    | some l => some (s!"{l.length} " ++ " ".intercalate (l.map toString))

/-! ### Floater system -/

structure Setup where
  ts : List Tri
  bpos : Array (Option (V2 Rat))
  w : Std.HashMap Nat Rat
  nv : Nat

def Setup.bp (s : Setup) (v : Nat) : Option (V2 Rat) := (s.bpos[v]?).join
def Setup.wt (s : Setup) (c n : Nat) : Option Rat := s.w.get? (c * s.nv + n)

partial def parseB (ws : Toks) (acc : Array (Option (V2 Rat))) : Option (Array (Option (V2 Rat))) :=
  match ws with
  | [] => some acc
  | i :: x :: y :: r => do
    let i ← i.toNat?
    let x ← parseRat x
    let y ← parseRat y
    if i < acc.size then parseB r (acc.set! i (some ⟨x, y⟩)) else none
  | _ => none

partial def parseW (nv : Nat) (ws : Toks) (acc : Std.HashMap Nat Rat) : Option (Std.HashMap Nat Rat) :=
  match ws with
  | [] => some acc
  | c :: n :: w :: r => do
    let c ← c.toNat?
    let n ← n.toNat?
    let w ← parseRat w
    parseW nv r (acc.insert (c * nv + n) w)
  | _ => none

def parseSetup (ws : Toks) : Option (Setup × Toks) := do
  let (ts, r) ← takeSoup "T" ws
  let nv := (vertsAll ts).foldl max 0 + 1
  let (b, r) ← takeN "B" r 3
  let bpos ← parseB b (Array.replicate nv none)
  let (w, r) ← takeN "W" r 3
  let w ← parseW nv w {}
  some ({ ts, bpos, w, nv }, r)

def handleSystem (ws : Toks) : Option String := do
  let (s, _) ← parseSetup ws
  match floaterSystem s.ts s.bp s.wt with
  | none => some "panic"
  | some rows =>
    let rows := sortBy (fun a b => decide (a.1 < b.1)) rows
    let render := fun (cr : Nat × Row Rat) =>
      let offs := sortBy (fun (a b : Nat × Rat) => decide (a.1 < b.1)) cr.2.offs
      s!"{cr.1} {showRat cr.2.diag}" ++ String.join (offs.map fun jw => s!" {jw.1}:{showRat jw.2}") ++
        s!" ; {showRat cr.2.bias.x} {showRat cr.2.bias.y}"
    some (" | ".intercalate (rows.map render))

def absR (q : Rat) : Rat := if q < 0 then -q else q

partial def parseX (ws : Toks) (acc : Array (V2 Rat)) : Option (Array (V2 Rat)) :=
  match ws with
  | [] => some acc
  | i :: x :: y :: r => do
    let i ← i.toNat?
    let x ← parseRat x
    let y ← parseRat y
    if i < acc.size then parseX r (acc.set! i ⟨x, y⟩) else none
  | _ => none

/-- residual of the weighted-mean equation at every vertex without a position in `s.bpos`
(`none`: a weight is missing or the weights of a vertex sum to 0) -/
def residOf (s : Setup) (px : Nat → V2 Rat) : Option Rat :=
  let interior := (verts s.ts).filter fun v => (s.bp v).isNone
  interior.foldl (fun acc c =>
    match acc, nbList s.ts s.bp s.wt c with
    | some m, some nbs =>
      let lx := nbs.map fun nb => match nb with
        | .var j w => (w, (px j).x)
        | .fixed p w => (w, p.x)
      let ly := nbs.map fun nb => match nb with
        | .var j w => (w, (px j).y)
        | .fixed p w => (w, p.y)
      if wtot lx == 0 then none else
      let ex := absR ((px c).x - weightedMean lx)
      let ey := absR ((px c).y - weightedMean ly)
      some (max m (max ex ey))
    | _, _ => none) (some 0)

/-- boundary vertices keep their prescribed positions -/
def bfixOf (s : Setup) (px : Nat → V2 Rat) : Bool :=
  (verts s.ts).all fun v => match s.bp v with
    | some p => px v == p
    | none => true

def uvOf (s : Setup) (lo hi : Rat) (px : Nat → V2 Rat) : Bool :=
  uvValid lo hi (s.ts.map fun t => (⟨px t.1, px t.2.1, px t.2.2⟩ : Tri2 Rat))

def handleParam (ws : Toks) : Option String := do
  match ws with
  | mode :: "L" :: lo :: "H" :: hi :: "TOL" :: tol :: rest =>
    let lo ← parseRat lo
    let hi ← parseRat hi
    let tol ← parseRat tol
    let (s, r) ← parseSetup rest
    match r with
    | "X" :: n :: xs =>
      match n.toNat? with
      | none => some s!"resid=FAIL:{n} uv=FAIL:{n}"
      | some k =>
        if xs.length ≠ 3 * k then none else
        let pos ← parseX xs (Array.replicate s.nv ⟨0, 0⟩)
        let px := fun (v : Nat) => (pos[v]?).getD ⟨0, 0⟩
        let resid := residOf s px
        let residOK := match resid with
          | some m => decide (m ≤ tol)
          | none => false
        let rs := if mode == "stretch" then "resid=ok" else
          (if residOK && bfixOf s px then "resid=ok" else s!"resid=FAIL:{match resid with | some m => showRat m | none => "none"}")
        some (rs ++ " " ++ (if uvOf s lo hi px then "uv=ok" else "uv=FAIL"))
    | _ => none
  | _ => none

/-! ### hist: several solves over ONE boundary map -/

partial def histSteps (ts : List Tri) (nv : Nat) (b0 : Array (Option (V2 Rat))) (nb0 : Nat) (lo hi tol : Rat)
    (i : Nat) (ws : Toks) (acc : List String) : Option (List String) :=
  match ws with
  | [] => some acc
  | "S" :: _mode :: "X" :: st :: _ => some (acc ++ [s!"s{i}:status={st}"])
  | "S" :: _mode :: rest => do
    let (w, r) ← takeN "W" rest 3
    let w ← parseW nv w {}
    match r with
    | "BA" :: nba :: r1 =>
      let nba ← nba.toNat?
      if r1.length < 3 * nba then none else
      let ba ← parseB (r1.take (3 * nba)) (Array.replicate (nv + 1) none)
      match r1.drop (3 * nba) with
      | "X" :: n :: xs =>
        match n.toNat? with
        | none => some (acc ++ [s!"s{i}:status={n}"])
        | some k =>
          if xs.length < 3 * k then none else
          let pos ← parseX (xs.take (3 * k)) (Array.replicate nv ⟨0, 0⟩)
          let px := fun (v : Nat) => (pos[v]?).getD ⟨0, 0⟩
          let s : Setup := { ts := ts, bpos := b0, w := w, nv := nv }
          let bsame := nba == nb0 && (List.range (nv + 1)).all fun v => (ba[v]?).join == (b0[v]?).join
          let residS := match residOf s px with
            | some m => if decide (m ≤ tol) then "" else s!"s{i}:interior-vertex-not-at-weighted-mean(resid={showRat m})"
            | none => s!"s{i}:weights-missing"
          let fails :=
            (if bsame then [] else [s!"s{i}:boundary-map-changed(size {nb0}->{nba})"]) ++
            (if bfixOf s px then [] else [s!"s{i}:solution-differs-from-boundary-map-on-boundary"]) ++
            (if residS == "" then [] else [residS]) ++
            (if uvOf s lo hi px then [] else [s!"s{i}:uv-invalid"])
          histSteps ts nv b0 nb0 lo hi tol (i + 1) (xs.drop (3 * k)) (acc ++ fails)
      | _ => none
    | _ => none
  | _ => none

def handleHist (ws : Toks) : Option String := do
  match ws with
  | "L" :: lo :: "H" :: hi :: "TOL" :: tol :: rest =>
    let lo ← parseRat lo
    let hi ← parseRat hi
    let tol ← parseRat tol
    let (ts, r) ← takeSoup "T" rest
    let nv := (vertsAll ts).foldl max 0 + 1
    let (b, r) ← takeN "B" r 3
    let nb0 := b.length / 3
    let b0 ← parseB b (Array.replicate (nv + 1) none)
    match r with
    | "K" :: _ :: steps =>
      let fails ← histSteps ts nv b0 nb0 lo hi tol 1 steps []
      some (if fails.isEmpty then "ok" else "FAIL " ++ " ".intercalate fails)
    | _ => none
  | _ => none

/-! ### atlas / pack / mapfn -/

partial def parseTri2s (ws : Toks) (acc : Array (Tri2 Rat)) : Option (Array (Tri2 Rat)) :=
  match ws with
  | [] => some acc
  | a :: b :: c :: d :: e :: f :: r => do
    let v ← [a, b, c, d, e, f].mapM parseRat
    match v with
    | [a, b, c, d, e, f] => parseTri2s r (acc.push ⟨⟨a, b⟩, ⟨c, d⟩, ⟨e, f⟩⟩)
    | _ => none
  | _ => none

def handleAtlas (ws : Toks) : Option String := do
  match ws with
  | "RES" :: _ :: "M" :: n :: "U" :: u :: "C" :: k :: rest =>
    let n ← n.toNat?
    let u ← u.toNat?
    let k ← k.toNat?
    if rest.length < k then none else
    let cov ← (rest.take k).mapM (·.toNat?)
    -- every mesh triangle is a key of the UV map exactly once, and there is no other key
    let coverOK := u == n && k == n && cov == List.range n
    match rest.drop k with
    | "T" :: k2 :: uvs =>
      let k2 ← k2.toNat?
      if uvs.length ≠ 6 * k2 then none else
      let ts ← parseTri2s uvs #[]
      some ((if coverOK then "cover=ok" else s!"cover=FAIL:{k}-of-{n}-triangles-have-UVs,{u}-keys") ++ " " ++
        (if uvValid (0 : Rat) 1 ts.toList then "uv=ok" else "uv=FAIL"))
    | _ => none
  | "RES" :: _ :: "M" :: [status] => some s!"cover=FAIL:{status} uv=FAIL:{status}"
  | _ => none

structure Chart where
  area : Rat
  tris : List (Tri2 Rat)

partial def parseChartsP : Nat → Toks → Option (List Chart)
  | 0, _ => some []
  | k + 1, ws =>
    match ws with
    | "A" :: a :: "M" :: m :: rest => do
      let a ← parseRat a
      let m ← m.toNat?
      if rest.length < 6 * m then none else
      let ts ← parseTri2s (rest.take (6 * m)) #[]
      let cs ← parseChartsP k (rest.drop (6 * m))
      some (⟨a, ts.toList⟩ :: cs)
    | _ => none

def handlePack (ws : Toks) : Option String := do
  match ws with
  | "B" :: b :: "R" :: lx :: ly :: hx :: hy :: "N" :: k :: rest =>
    let border ← parseRat b
    let lx ← parseRat lx
    let ly ← parseRat ly
    let hx ← parseRat hx
    let hy ← parseRat hy
    let k ← k.toNat?
    let cs ← parseChartsP k rest
    let csA := cs.toArray
    let ps : List (Nat × Rat) := cs.zipIdx.map fun (c, i) => (i, c.area)
    let tree := buildQT (ps.length + 1) (sortDesc ps)
    let cellsOf := joined border ⟨⟨lx, ly⟩, ⟨hx, hy⟩⟩ tree
    -- every chart: its target rectangle
    let out : Option (List String) := (List.range k).mapM fun i =>
      match cellsOf.find? (fun c => c.1 == i), csA[i]? with
      | some (_, cell), some ch =>
        if cell.hi.x < cell.lo.x || cell.hi.y < cell.lo.y then none else
        match bounds2 (ch.tris.flatMap fun t => [t.a, t.b, t.c]) with
        | none => some ""
        | some old =>
          some (" ".intercalate (ch.tris.map fun t =>
            " ".intercalate ([t.a, t.b, t.c].map fun p =>
              let q := toBounds old cell p
              s!"{showRat q.x} {showRat q.y}")))
      | _, _ => none
    match out with
    | none => some "panic"
    | some ls => some (" ".intercalate ls)
  | _ => none

def handleMapFn (ws : Toks) : Option String := do
  match ws with
  | mode :: "Q" :: px :: py :: "WANT" :: wx :: wy :: wz :: "R" :: rest =>
    let p : V2 Rat := ⟨← parseRat px, ← parseRat py⟩
    let want : V3 Rat := ⟨← parseRat wx, ← parseRat wy, ← parseRat wz⟩
    match rest with
    | [qx, qy, qz, "U", a, b, c, d, e, f, "P", x0, y0, z0, x1, y1, z1, x2, y2, z2] =>
      let q : V3 Rat := ⟨← parseRat qx, ← parseRat qy, ← parseRat qz⟩
      let u : Tri2 Rat := ⟨⟨← parseRat a, ← parseRat b⟩, ⟨← parseRat c, ← parseRat d⟩, ⟨← parseRat e, ← parseRat f⟩⟩
      let t : Tri3 Rat := ⟨⟨← parseRat x0, ← parseRat y0, ← parseRat z0⟩, ⟨← parseRat x1, ← parseRat y1, ← parseRat z1⟩,
        ⟨← parseRat x2, ← parseRat y2, ← parseRat z2⟩⟩
      if u.orient == 0 then some "FAIL degenerate-uv-triangle" else
      let w := bary2 u p
      let r := atBary3 t w
      let eps : Rat := if mode == "E" then 0 else (1 : Rat) / 10000000
      let scale : Rat := 1 + absR want.x + absR want.y + absR want.z
      let close := fun (a b : V3 Rat) =>
        decide (absR (a.x - b.x) ≤ eps * scale) && decide (absR (a.y - b.y) ≤ eps * scale) && decide (absR (a.z - b.z) ≤ eps * scale)
      some (verdict [
        ("returned-triangle-does-not-contain-query", decide (-eps ≤ w.1) && decide (-eps ≤ w.2.1) && decide (-eps ≤ w.2.2)),
        ("point-is-not-barycentric-interpolation", close q r),
        ("point-differs-from-source-triangle-point", close q want)])
    | [status] => some ("FAIL status=" ++ status)
    | _ => none
  | [_, status] => some ("FAIL status=" ++ status)
  | _ => none

/-! ### near: `MapFn` for queries outside every UV triangle -/

partial def parseNear (with3d : Bool) : Nat → Toks → Array (Tri2 Rat × Tri3 Rat) → Option (Array (Tri2 Rat × Tri3 Rat) × Toks)
  | 0, ws, acc => some (acc, ws)
  | k + 1, ws, acc => do
    let per := if with3d then 15 else 6
    if ws.length < per then none else
    let v ← (ws.take per).mapM parseRat
    let g := fun (i : Nat) => v.getD i 0
    let u : Tri2 Rat := ⟨⟨g 0, g 1⟩, ⟨g 2, g 3⟩, ⟨g 4, g 5⟩⟩
    let t : Tri3 Rat := if with3d then ⟨⟨g 6, g 7, g 8⟩, ⟨g 9, g 10, g 11⟩, ⟨g 12, g 13, g 14⟩⟩ else ⟨⟨0, 0, 0⟩, ⟨0, 0, 0⟩, ⟨0, 0, 0⟩⟩
    parseNear with3d k (ws.drop per) (acc.push (u, t))

/-- distance key of a triangle: 0 when it contains `p` (all barycentric coordinates ≥ −slack), else
the squared distance of its closest boundary point -/
def nearKey (slack : Rat) (u : Tri2 Rat) (p : V2 Rat) : Rat :=
  let w := bary2 u p
  if u.orient != 0 && decide (-slack ≤ w.1) && decide (-slack ≤ w.2.1) && decide (-slack ≤ w.2.2) then 0
  else (triNearest u p).1

def handleNear (ws : Toks) : Option String := do
  match ws with
  | "T" :: "Q" :: px :: py :: "N" :: n :: rest =>
    let p : V2 Rat := ⟨← parseRat px, ← parseRat py⟩
    let n ← n.toNat?
    let (ts, _) ← parseNear false n rest #[]
    match findUV (ts.toList.map (·.1)) p with
    | none => some "nil"
    | some (i, w) => some s!"{i} {showRat w.1} {showRat w.2.1} {showRat w.2.2}"
  | mode :: "Q" :: px :: py :: "N" :: n :: rest =>
    let p : V2 Rat := ⟨← parseRat px, ← parseRat py⟩
    let n ← n.toNat?
    let (ts, r) ← parseNear true n rest #[]
    match r with
    | ["R", idx, qx, qy, qz] =>
      let idx ← idx.toNat?
      let q : V3 Rat := ⟨← parseRat qx, ← parseRat qy, ← parseRat qz⟩
      let exact := mode == "M"
      let slack : Rat := if exact then 0 else (1 : Rat) / 1000000000
      let eps : Rat := if exact then 0 else (1 : Rat) / 10000000
      match ts[idx]? with
      | none => some "FAIL returned-triangle-not-in-the-map"
      | some (u, t) =>
        let keys := ts.toList.map fun ut => nearKey 0 ut.1 p
        let best := keys.foldl min (nearKey 0 u p)
        let mine := nearKey slack u p
        let nearest := decide (mine ≤ best * (1 + slack) + slack * slack)
        -- the 3-D point: interpolation at the barycentric coordinates of p (inside) or of the
        -- closest boundary point (outside)
        let scale : Rat := 1 + absR q.x + absR q.y + absR q.z
        let close := fun (a b : V3 Rat) =>
          decide (absR (a.x - b.x) ≤ eps * scale) && decide (absR (a.y - b.y) ≤ eps * scale) && decide (absR (a.z - b.z) ≤ eps * scale)
        let wIn := bary2 u p
        let inside := u.orient != 0 && decide (-slack ≤ wIn.1) && decide (-slack ≤ wIn.2.1) && decide (-slack ≤ wIn.2.2)
        let okIn := inside && close q (atBary3 t wIn)
        let okOut := (!inside || !exact) && close q (atBary3 t (triNearest u p).2)
        some (verdict [
          (s!"a-nearer-triangle-exists(returned-dist2={showRat mine},smallest={showRat best})", nearest),
          ("point-is-not-the-interpolation-of-the-nearest-uv-point", okIn || okOut)])
    | ["R", status] => some ("FAIL status=" ++ status)
    | _ => none
  | _ => none

/-! ### circle (libm: validation only) -/

partial def parseTriples (ws : Toks) (acc : Array (Float × Float × Float)) : Option (Array (Float × Float × Float)) :=
  match ws with
  | [] => some acc
  | a :: b :: c :: r => do
    let a ← floatOfHex a
    let b ← floatOfHex b
    let c ← floatOfHex c
    parseTriples r (acc.push (a, b, c))
  | _ => none

def handleCircle (ws : Toks) : Option String := do
  match ws with
  | "P" :: p :: "N" :: n :: rest =>
    match n.toNat? with
    | none => some ("FAIL status=" ++ n)
    | some k =>
      if rest.length ≠ 3 * k then none else
      let tr ← parseTriples rest #[]
      let lens := tr.toList.map (·.1)
      let tot := lens.foldl (· + ·) 0.0
      let cums := runSums 0.0 lens
      let pi : Float := 3.141592653589793
      let ok := (cums.zip tr.toList).all fun (cur, (_, gx, gy)) =>
        let theta := 2 * pi * cur / tot
        let cx := Float.cos theta
        let cy := Float.sin theta
        let (mx, my) :=
          if p == "4" then
            let nrm := Float.pow (Float.pow cx.abs 4 + Float.pow cy.abs 4) (1 / 4)
            (cx * (1 / nrm), cy * (1 / nrm))
          else (cx, cy)
        (mx - gx).abs ≤ 1e-12 && (my - gy).abs ≤ 1e-12
      some (if ok then "ok" else "FAIL placement-differs-from-arclength-model")
  | _ => none

/-! ### ext: `ExtendBoundaryUVs` -/

def boundaryFrom (ts : List Tri) (start : Option Nat) : Option (List Nat) :=
  let starts := (bdyEdgesFind ts).map (·.1)
  match starts with
  | [] => none
  | s :: r =>
    let st := match start with
      | some v => v
      | none => r.foldl min s
    boundarySeq ts st

def handleExtS (ws : Toks) : Option String := do
  match ws with
  | "MD" :: md :: "L" :: lo :: "H" :: hi :: rest =>
    let md ← parseRat md
    let lo ← parseRat lo
    let hi ← parseRat hi
    let (ts, r) ← takeSoup "T" rest
    let nv := (vertsAll ts).foldl max 0 + 1
    let (b, r) ← takeN "B" r 3
    match r with
    | ["A", status] => some ("FAIL status=" ++ status)
    | _ =>
    let (a, _) ← takeN "A" r 3
    let bpos ← parseX b (Array.replicate nv ⟨0, 0⟩)
    let apos ← parseX a (Array.replicate nv ⟨0, 0⟩)
    let bx := fun (v : Nat) => (bpos[v]?).getD ⟨0, 0⟩
    let ax := fun (v : Nat) => (apos[v]?).getD ⟨0, 0⟩
    match boundaryFrom ts none with
    | none => some "FAIL generator-input-has-no-single-boundary-cycle"
    | some seq =>
      let n := seq.length
      let ears := (List.range n).filter fun i =>
        let (p0, p1, p2) := earTriple seq i
        isEarTri ts p0 p1 p2
      let apexes := earApexes ts seq
      let tri2 := fun (px : Nat → V2 Rat) (t : Tri) => (⟨px t.1, px t.2.1, px t.2.2⟩ : Tri2 Rat)
      let preValid := uvValid lo hi (ts.map (tri2 bx))
      -- frame: nothing but ear apexes moves
      let moved := (verts ts).filter fun v => ax v != bx v
      let frame := moved.all fun v => apexes.contains v
      -- per ear whose neighbours are not apexes themselves (they are, only in a one-triangle mesh)
      let perEar : List (String × Bool) := ears.flatMap fun i =>
        let (p0, p1, p2) := earTriple seq i
        if apexes.contains p0 || apexes.contains p2 then [] else
        let h := earCross (bx p0) (bx p1) (bx p2)
        let o := originCross (bx p0) (bx p1) (bx p2)
        let h' := earCross (bx p0) (ax p1) (bx p2)
        let e := (bx p2).sub (bx p0)
        let d2 := dist2 (ax p1) (bx p1)
        let slack : Rat := 1 - 1 / 1000000000000
        [(s!"generator-origin-not-on-the-inner-side-at-vertex-{p1}", decide (0 < h * o)),
         (s!"ear-at-vertex-{p1}-flipped-over-its-opposite-edge", decide (0 < h * h') || ax p1 == bx p1),
         (s!"ear-at-vertex-{p1}-pushed-towards-its-opposite-edge", decide (absR h * slack ≤ absR h') || !decide (0 < h * h')),
         (s!"vertex-{p1}-moved-farther-than-maxDist", decide (d2 * slack * slack ≤ md * md)),
         (s!"vertex-{p1}-moved-although-opposite-edge-degenerate", decide (0 < dot2 e e) || ax p1 == bx p1)]
      let flips := ts.filter fun t =>
        let ob := (tri2 bx t).orient
        let oa := (tri2 ax t).orient
        !decide (0 < ob * oa)
      let noFlip := flips.isEmpty
      let postValid := uvValid lo hi (ts.map (tri2 ax))
      some (verdict ([("generator-input-layout-invalid", preValid),
        (s!"a-vertex-that-is-not-an-ear-apex-moved({moved.filter fun v => !apexes.contains v})", frame)] ++ perEar ++
        [(s!"{flips.length}-triangles-changed-orientation", noFlip || !preValid),
         ("layout-after-ExtendBoundaryUVs-flipped-or-overlapping", postValid || !preValid)]))
  | _ => none

partial def parseHexes (ws : Toks) (acc : Array Float) : Option (Array Float) :=
  match ws with
  | [] => some acc
  | a :: r => do
    let a ← floatOfHex a
    parseHexes r (acc.push a)

def handleExtF (ws : Toks) : Option String := do
  match ws with
  | "MD" :: md :: "ST" :: st :: rest =>
    let md ← floatOfHex md
    let st ← st.toNat?
    let (ts, r) ← takeSoup "T" rest
    let (p, r) ← takeN "P" r 3
    let (b, _) ← takeN "B" r 2
    let pa ← parseHexes p #[]
    let ba ← parseHexes b #[]
    let pos := fun (v : Nat) => (⟨pa[3 * v]!, pa[3 * v + 1]!, pa[3 * v + 2]!⟩ : V3 Float)
    let nv := ba.size / 2
    let param : AMap (V2 Float) := (List.range nv).map fun v => (v, (⟨ba[2 * v]!, ba[2 * v + 1]!⟩ : V2 Float))
    match boundaryFrom ts (some st) with
    | none => some "panic"
    | some seq =>
      let res := extendBoundary ts pos seq md param
      let ids := sortBy (fun a b => decide (a < b)) seq
      some (" ".intercalate (ids.map fun v =>
        let q := AMap.value res v
        s!"{v} {hexOfFloat q.x} {hexOfFloat q.y}"))
  | _ => none

def handleExt (ws : Toks) : Option String :=
  match ws with
  | "S" :: r => handleExtS r
  | "F" :: r => handleExtF r
  | _ => none

/-! ### sparse: `numerical.SparseMatrix` -/

open M3d.Sparse in
def sparseOut {α : Type} [Add α] [Mul α] [OfNat α 0] (parse : String → Option α) (render : α → String) (ws : Toks) :
    Option String := do
  match ws with
  | "N" :: n :: "P" :: p :: rest =>
    let n ← n.toNat?
    let p ← p.toNat?
    let (ops, r) ← takeN "OPS" rest 3
    let (xs, r) ← takeN "X" r
    let (ys, r) ← takeN "Y" r
    let (pm, _) ← takeN "PERM" r
    let rec parseOps : Toks → Option (List (Nat × Nat × α))
      | [] => some []
      | a :: b :: v :: t => do
        let a ← a.toNat?
        let b ← b.toNat?
        let v ← parse v
        let l ← parseOps t
        some ((a, b, v) :: l)
      | _ => none
    let ops ← parseOps ops
    let x ← xs.mapM parse
    let y ← ys.mapM parse
    let perm ← pm.mapM (·.toNat?)
    let vec := fun (l : List α) => " ".intercalate (l.map render)
    let rowsOf := fun (m : SM α) =>
      ";".intercalate ((List.range m.size).map fun i =>
        ",".intercalate ((m.entries i).map fun cv => s!"{cv.1}:{render cv.2}"))
    let m1 := SM.build n (ops.take p)
    let m := SM.build n ops
    let t := m.transpose
    let pmx := m.permute perm
    some (" | ".intercalate [
      "A1 " ++ vec (m1.apply x),
      "A " ++ vec (m.apply x),
      "V " ++ " ".intercalate ((m.applyV2 (x.zip y)).map fun q => s!"{render q.1} {render q.2}"),
      "I " ++ rowsOf m,
      "T " ++ rowsOf t,
      "TA " ++ vec (t.apply x),
      "PM " ++ rowsOf pmx,
      "PA " ++ vec (pmx.apply x)])
  | _ => none

def handleSparse (ws : Toks) : Option String :=
  match ws with
  | "Q" :: r => sparseOut (α := Rat) parseRat showRat r
  | "F" :: r => sparseOut (α := Float) floatOfHex hexOfFloat r
  | _ => none

/-! ### cg: `numerical.BiCGSTAB` at `Float`, bit for bit -/

def hexOrNaN (x : Float) : String := if x.isNaN then "nan" else hexOfFloat x

open M3d.Sparse M3d.CG in
def handleCG (ws : Toks) : Option String := do
  match ws with
  | "F" :: "N" :: n :: rest =>
    let n ← n.toNat?
    let (ops, r) ← takeN "OPS" rest 3
    let (bs, r) ← takeN "B" r
    let (gs, r) ← takeN "G" r
    match r with
    | ["MAXIT", m, "MSE", mse, "MAE", mae, "IT", j] =>
      let m ← m.toNat?
      let j ← j.toNat?
      let mse ← floatOfHex mse
      let mae ← floatOfHex mae
      let rec parseOps : Toks → Option (List (Nat × Nat × Float))
        | [] => some []
        | a :: b :: v :: t => do
          let a ← a.toNat?
          let b ← b.toNat?
          let v ← floatOfHex v
          let l ← parseOps t
          some ((a, b, v) :: l)
        | _ => none
      let ops ← parseOps ops
      let b ← bs.mapM floatOfHex
      let g ← gs.mapM floatOfHex
      let guess : Option (List Float) := if gs.isEmpty then none else some g
      let mat := SM.build n ops
      let op := fun (v : List Float) => mat.apply v
      let o : VOps Float (List Float) := listOps Float.abs Float.ofNat
      let vec := fun (l : List Float) => " ".intercalate (l.map hexOrNaN)
      let sol := match solve o Float.isNaN (fun a b => a < b) op b guess m mse mae (mse != 0 || mae != 0) with
        | none => "panic"
        | some v => vec v
      let st0 := init o op b guess
      let its := (List.range j).map fun i => vec (iterN o op (i + 1) st0).x
      some ("S " ++ sol ++ " | I " ++ " ; ".intercalate its)
    | _ => none
  | _ => none

def handleAll (ws : List String) : Option String :=
  match ws with
  | "grow" :: r => handleGrow r
  | "charts" :: r => handleCharts r
  | "bseq" :: r => handleBseq r
  | "system" :: r => handleSystem r
  | "param" :: r => handleParam r
  | "atlas" :: r => handleAtlas r
  | "pack" :: r => handlePack r
  | "mapfn" :: r => handleMapFn r
  | "circle" :: r => handleCircle r
  | "hist" :: r => handleHist r
  | "near" :: r => handleNear r
  | "ext" :: r => handleExt r
  | "sparse" :: r => handleSparse r
  | "cg" :: r => handleCG r
  | _ => none

end M3d.Drv.C18
