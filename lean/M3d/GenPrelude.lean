/-!
# Prelude of the regenerated kernels (`M3d/Gen/Kernels.lean`)

The only hand-written vocabulary that the Go→Lean translator (`harness/hlib/go2lean`) relies on:
`math.Sqrt` as a class, `math.Abs/Min/Max` on non-NaN values, Go's `==` on floats, `math.Inf`/`IsNaN` as a class
and the structural recursion `loopFrom` that loops with a run-time trip count are translated to.
Core Lean only.
-/
namespace M3d.GenPrelude

/-- `math.Sqrt`.  Executed at `Float` with `Float.sqrt`; in theorems an uninterpreted function with the
hypotheses a lemma needs stated explicitly (`sqrt x * sqrt x = x`, `0 ≤ sqrt x` for `0 ≤ x`). -/
class HasSqrt (α : Type) where
  sqrt : α → α

instance : HasSqrt Float := ⟨Float.sqrt⟩

/-- Go's `float64(i)` for an `int` value. -/
class HasOfInt (α : Type) where
  ofInt : Int → α

instance : HasOfInt Float := ⟨Float.ofInt⟩

/-- The libm functions a translated function may call.  Uninterpreted in theorems; at run time `Float`'s own
(C libm — NOT bit-compatible with Go's pure-Go `math` package, so generated definitions that use them are
excluded from the bit-for-bit translation validation and are tied by theorems only). -/
class HasLibm (α : Type) where
  cos : α → α
  sin : α → α
  tan : α → α
  acos : α → α
  asin : α → α
  atan : α → α
  exp : α → α
  log : α → α
  pow : α → α → α
  atan2 : α → α → α

instance : HasLibm Float := ⟨Float.cos, Float.sin, Float.tan, Float.acos, Float.asin, Float.atan, Float.exp, Float.log,
  Float.pow, Float.atan2⟩

/-- `math.Inf(±1)` and `math.IsNaN`.  At `Float` the IEEE values; in theorems over an ordered field two
uninterpreted constants with the hypotheses a lemma needs stated explicitly (typically: `posInf` exceeds and
`negInf` is below every value that occurs, `isNaN` is constantly `false`). -/
class HasInf (α : Type) where
  posInf : α
  negInf : α
  isNaN : α → Bool

instance : HasInf Float := ⟨1.0 / 0.0, -1.0 / 0.0, Float.isNaN⟩

/-- Outcome of one loop iteration: go on with the new values of the assigned variables, `break` with them,
or `return r` from the enclosing function. -/
inductive Loop (ρ σ : Type) where
  | ret (r : ρ)
  | brk (s : σ)
  | next (s : σ)

/-- A Go `for` loop over the elements `xs` (position `i` counted from the given start), threading the state
`s`: `Sum.inl r` when the body returned `r`, `Sum.inr s'` when the loop ended (exhausted or `break`). -/
def loopFrom {ρ σ ε : Type} (f : σ → Nat → ε → Loop ρ σ) : List ε → Nat → σ → Sum ρ σ
  | [], _, s => Sum.inr s
  | x :: xs, i, s =>
    match f s i x with
    | Loop.ret r => Sum.inl r
    | Loop.brk s' => Sum.inr s'
    | Loop.next s' => loopFrom f xs (i + 1) s'

section
variable {α : Type} [Sub α] [LT α] [DecidableLT α] [OfNat α 0]

/-- `math.Abs` on non-NaN values. -/
def absS (x : α) : α := if (0 : α) < x then x else 0 - x
/-- `math.Min` on non-NaN values. -/
def mn (a b : α) : α := if b < a then b else a
/-- `math.Max` on non-NaN values. -/
def mx (a b : α) : α := if a < b then b else a
/-- Go's `a == b` on floats: neither is smaller (the same answer on every non-NaN pair, `-0 == +0` included). -/
def feq (a b : α) : Bool := !(decide (a < b) || decide (b < a))
end

end M3d.GenPrelude
