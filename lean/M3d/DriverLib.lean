import M3d.Basic
/-!
Line-protocol driver loop shared by the per-property executables `Drivers/Cxx.lean`:
one operation line in, one result line out.  A line the handler does not understand
yields `bad-op` (never a default answer).  Core-only.
-/
namespace M3d

partial def driverLoop (handle : List String → Option String) (h out : IO.FS.Stream) : IO Unit := do
  let line ← h.getLine
  if line.isEmpty then return ()
  let r := match handle (splitWords line) with
    | some s => s
    | none => "bad-op"
  out.putStrLn r
  driverLoop handle h out

def runDriver (handle : List String → Option String) : IO Unit := do
  let out ← IO.getStdout
  driverLoop handle (← IO.getStdin) out
  out.flush

end M3d
