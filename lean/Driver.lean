import M3d.Basic
import M3d.Drv.C09
/-!
Line-protocol driver: one operation line in, one result line out.
`<property> <kind> args…`; a line no handler understands yields `bad-op`
(never a default answer).  Core-only, so it is also built as a native executable.
-/
open M3d

def dispatch (ws : List String) : Option String :=
  match ws with
  | "c09" :: rest => Drv.C09.handleAll rest
  | _ => none

partial def loop (h : IO.FS.Stream) (out : IO.FS.Stream) : IO Unit := do
  let line ← h.getLine
  if line.isEmpty then return ()
  let r := match dispatch (splitWords line) with
    | some s => s
    | none => "bad-op"
  out.putStrLn r
  loop h out

def main : IO Unit := do
  let out ← IO.getStdout
  loop (← IO.getStdin) out
  out.flush
